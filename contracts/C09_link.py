"""C09: the order in which a TCP connection reports itself established and closed (D45).

The receiver thread starts before the handlers of `connected` run (they may already need received data).  A peer that
closes at once makes the receiver thread leave its read loop while those handlers are still running on the thread that
accepted / opened the connection.  Necessary condition under contract here: on the receiver thread `on_disconnecting`
and `on_disconnected` are fired only after the wait for the end of the `connected` handlers has returned, and the thread
that fires `connected` always releases that wait - also when a handler raises.  What stays unverified (ASSUMED, stated in
the unit's evidence): that no other thread clears the gate between the wait and the two events (only `_start_receiver`
clears it, for the next connection, which is started after `_on_receiver_stopped`)."""
from pyvc.contract import *  # noqa
from pyvc.spec_intrinsics import *  # noqa
from spec.ext import AbsGate, AbsLinkEvent, AbsSettings, AbsSocket

from secsgem.common.tcp_client_connection import TcpClientConnection
from secsgem.common.tcp_connection import TcpConnection
from secsgem.common.tcp_server_connection import TcpServerConnection


@contract("spec.ext:AbsGate.wait", "C09", name="GateWaitAbs")
class GateWaitAbs:
    """ASSUMED (threading.Event): wait() without timeout returns once the event is set (by whichever thread)."""

    abstract = True
    modifies = {"self.g_set": Bool}
    returns = Bool

    def ensures(self, result):
        return self.g_set and result


@contract("spec.ext:AbsGate.set", "C09", name="GateSetAbs")
class GateSetAbs:
    """ASSUMED (threading.Event)."""

    abstract = True
    modifies = {"self.g_set": Bool}

    def ensures(self):
        return self.g_set


@contract("spec.ext:AbsLinkEvent.__call__", "C09", name="LinkEventAfterConnectedAbs")
class LinkEventAfterConnectedAbs:
    """ASSUMED effect (handlers of the protocol layer and of the application: anything, may raise), with the call-site
    OBLIGATION of the property: the link is reported closing / closed only when the handlers of `connected` are done."""

    abstract = True
    modifies = {"self.g_fired": Int}
    may_raise = [Exception]

    def requires(self, data):
        return {"connected-handlers-are-done": self.g_owner._connected_handled.g_set}

    def in_every_case(self, data, old):
        return self.g_fired == old.self.g_fired + 1


@contract("spec.ext:AbsLinkEvent.__call__", "C09", name="ConnectedEventAbs")
class ConnectedEventAbs:
    """ASSUMED effect of the handlers of `connected`: anything, may raise."""

    abstract = True
    modifies = {"self.g_fired": Int}
    may_raise = [Exception]

    def in_every_case(self, data, old):
        return self.g_fired == old.self.g_fired + 1


@contract("spec.ext:AbsSocket.recv", "C09", name="RecvAbs")
class RecvAbs:
    """ASSUMED (POSIX): up to `size` bytes (none: the peer closed), or OSError with some errno (EWOULDBLOCK: nothing there)."""

    abstract = True
    returns = Bytes(max_len=1024)

    def raises(self, size):
        return {OSError: (fresh_bool("recv_fails"), {"errno": fresh_int("errno")})}


@contract("spec.ext:AbsLinkEvent.__call__", "C09", name="DataEventAbs")
class DataEventAbs:
    """ASSUMED effect of the handlers of `data` (the protocol's framing loop, C04): anything of their own, may raise."""

    abstract = True
    modifies = {"self.g_fired": Int}
    may_raise = [Exception]


@contract("secsgem.common.tcp_connection:TcpConnection._TcpConnection__receiver_thread_read_data", "C09")
class ReadLoop:
    """The frame the close sequence relies on: the read loop writes `_connected` and `_stop_thread` only (the gate of the
    `connected` handlers and the socket stay as they are), and when it returns normally a stop was requested or the peer
    has closed (`_stop_thread`).  Flags written by other threads (`_disconnecting`, `_stop_thread`): any value at every turn."""

    uses = [RecvAbs, DataEventAbs]
    canary = "every-path"
    may_raise = [Exception]

    def inputs():
        return {"self": _connection()}

    def ensures(self, old):
        return (self._stop_thread and self._connected_handled.g_set == old.self._connected_handled.g_set
                and self._sock.g_closed == old.self._sock.g_closed)

    def when_raised(self, old):
        return (self._connected_handled.g_set == old.self._connected_handled.g_set
                and self._sock.g_closed == old.self._sock.g_closed)

    def inv(self, old):
        return (self._connected_handled.g_set == old.self._connected_handled.g_set
                and self._sock.g_closed == old.self._sock.g_closed)

    loops = {1: Loop(a=inv, modifies=["self._connected", "self._stop_thread", "self._disconnecting", "self.on_data.g_fired"])}


@contract("secsgem.common.tcp_connection:TcpConnection._TcpConnection__receiver_thread_read_data", "C09", name="ReadLoopAbs")
class ReadLoopAbs:
    """The frame proved as ReadLoop, used by the close sequence: the read loop ends when the peer closed, the link failed
    (it may raise) or a stop was requested; it does not touch the gate or the socket object."""

    abstract = True
    modifies = {"self._connected": Bool, "self._stop_thread": Bool, "self._disconnecting": Bool, "self.on_data.g_fired": Int}
    may_raise = [Exception]


@contract("spec.ext:AbsSocket.close", "C09", name="SocketCloseAbs09")
class SocketCloseAbs09:
    """ASSUMED (POSIX)."""

    abstract = True
    modifies = {"self.g_closed": Bool}

    def ensures(self):
        return self.g_closed


@contract("secsgem.common.tcp_connection:TcpConnection._on_receiver_stopped", "C09", name="ReceiverStoppedAbs")
class ReceiverStoppedAbs:
    """ASSUMED (frame): the subclass decides about the next connection."""

    abstract = True


def _connection():
    return Obj(TcpClientConnection,
               _connected_handled=Obj(AbsGate, g_set=Bool),
               on_connected=Obj(AbsLinkEvent, g_fired=Int(0, None), g_owner=Root()),
               on_disconnecting=Obj(AbsLinkEvent, g_fired=Int(0, None), g_owner=Root()),
               on_disconnected=Obj(AbsLinkEvent, g_fired=Int(0, None), g_owner=Root()),
               on_data=Obj(AbsLinkEvent, g_fired=Int(0, None), g_owner=Root()),
               _sock=Obj(AbsSocket, g_closed=Bool),
               _connected=Bool, _stop_thread=Bool, _disconnecting=Bool, _thread_running=Bool, _receiver=Const(None))


@contract("secsgem.common.tcp_connection:TcpConnection._TcpConnection__receiver_thread", "C09")
class ReceiverThreadOrder:
    """The close sequence of the receiver thread: both events exactly once, in every case (the read loop may raise, every
    handler may raise), the socket closed, the flags reset - and both events only after the gate (call-site obligation
    `connected-handlers-are-done` of LinkEventAfterConnectedAbs)."""

    uses = [ReadLoopAbs, GateWaitAbs, LinkEventAfterConnectedAbs, SocketCloseAbs09, ReceiverStoppedAbs]
    canary = "every-path"

    def inputs():
        return {"self": _connection()}

    def raises():
        return {}

    def ensures(self, old):
        return (self.on_disconnecting.g_fired == old.self.on_disconnecting.g_fired + 1
                and self.on_disconnected.g_fired == old.self.on_disconnected.g_fired + 1
                and self.on_connected.g_fired == old.self.on_connected.g_fired
                and self._sock.g_closed and not self._connected and not self._stop_thread)


@contract("secsgem.common.tcp_connection:TcpConnection._fire_connected", "C09")
class FireConnected:
    """The thread that reports the connection always opens the gate for the receiver thread, whatever the handlers do."""

    uses = [ConnectedEventAbs, GateSetAbs]
    canary = "every-path"

    def inputs():
        return {"self": _connection()}

    def raises():
        return {}

    def ensures(self, old):
        return self._connected_handled.g_set and self.on_connected.g_fired == old.self.on_connected.g_fired + 1


# ===================================================================== the listener of a passive connection (D45)
class _SockAbs:
    abstract = True


@contract("spec.ext:AbsSocket.setsockopt", "C09", name="SetSockOptAbs")
class SetSockOptAbs(_SockAbs):
    """ASSUMED (POSIX): may fail with OSError (closed socket), no other effect seen here."""
    may_raise = [OSError]


@contract("spec.ext:AbsSocket.setblocking", "C09", name="SetBlockingAbs")
class SetBlockingAbs(_SockAbs):
    """ASSUMED (POSIX)."""
    may_raise = [OSError]


@contract("spec.ext:AbsSocket.bind", "C09", name="BindAbs")
class BindAbs(_SockAbs):
    """ASSUMED (POSIX): may fail with OSError (address in use, closed socket)."""
    may_raise = [OSError]


@contract("spec.ext:AbsSocket.listen", "C09", name="ListenAbs")
class ListenAbs(_SockAbs):
    """ASSUMED (POSIX)."""
    may_raise = [OSError]


@contract("spec.ext:AbsSocket.accept", "C09", name="AcceptAbs")
class AcceptAbs(_SockAbs):
    """ASSUMED (POSIX): a new connected socket and the peer's address, or OSError (closed by disable())."""
    may_raise = [OSError]
    returns = FixedList(Obj(AbsSocket, g_closed=Const(False), wire=Bytes()), FixedList(Str(), Int, kind="tuple"), kind="tuple")


@contract("spec.ext:AbsSocket.shutdown", "C09", name="ShutdownAbs")
class ShutdownAbs(_SockAbs):
    """ASSUMED (Linux): shutdown of a listening socket fails only when the socket was closed before (by disable())."""

    def raises(self, how):
        return {OSError: self.g_closed}


@contract("spec.ext:AbsSocket.close", "C09", name="SocketCloseNeverFailsAbs")
class SocketCloseNeverFailsAbs(_SockAbs):
    """ASSUMED (CPython): close() of a socket - closed already or not - does not raise."""
    modifies = {"self.g_closed": Bool}

    def ensures(self):
        return self.g_closed


@contract("secsgem.common.tcp_connection:TcpConnection._start_receiver", "C09", name="StartReceiverAfterListenerClosed")
class StartReceiverAfterListenerClosed:
    """ASSUMED effect (a thread is started), with the call-site OBLIGATION of D45: from here on the receiver thread may see
    the link lost and - still enabled - listen on the same address again, so the previous listening socket must be
    closed by now."""

    abstract = True
    modifies = {"self.g_receivers": Int}

    def requires(self):
        return {"listening-socket-closed-before-the-receiver-runs": self._server_sock.g_closed}

    def ensures(self, old):
        return self.g_receivers == old.self.g_receivers + 1


@contract("secsgem.common.tcp_connection:TcpConnection._fire_connected", "C09", name="FireConnectedAbs")
class FireConnectedAbs:
    """The post-condition proved as FireConnected above, used at the two call sites."""

    abstract = True
    modifies = {"self.on_connected.g_fired": Int, "self._connected_handled.g_set": Bool}

    def ensures(self, old):
        return self._connected_handled.g_set and self.on_connected.g_fired == old.self.on_connected.g_fired + 1


@contract("secsgem.common.tcp_server_connection:TcpServerConnection._TcpServerConnection__listen_and_accept", "C09")
class ListenAndAccept:
    """One run of the listener thread: it ends without a connection (stopped by disable(), or the address cannot be bound
    - then the OSError is passed on) or with exactly one: receiver started once, `connected` reported once after it, and
    the listening socket closed BEFORE the receiver was started (call-site obligation)."""

    uses = [SetSockOptAbs, SetBlockingAbs, BindAbs, ListenAbs, AcceptAbs, ShutdownAbs, SocketCloseNeverFailsAbs,
            StartReceiverAfterListenerClosed, FireConnectedAbs]
    canary = "every-path"
    may_raise = [OSError]

    def inputs():
        return {"self": Obj(TcpServerConnection, _settings=Obj(AbsSettings, address=Str(), port=Int(0, 65535)),
                            _server_sock=Const(None), _sock=Const(None), _stop_server_thread=Bool, _connected=Bool,
                            _connected_handled=Obj(AbsGate, g_set=Bool), on_connected=Obj(AbsLinkEvent, g_fired=Int(0, None), g_owner=Root()),
                            g_receivers=Int(0, None))}

    def ensures(self, old):
        served = self.g_receivers - old.self.g_receivers
        return ((served == 0 or served == 1) and self.on_connected.g_fired - old.self.on_connected.g_fired == served
                and implies(served == 1, lambda: self._connected and self._connected_handled.g_set
                            and self._server_sock.g_closed and not self._sock.g_closed))

    def inv(self, old):
        # a connection ends the run: at the loop head none has been accepted yet
        return (self._sock is None and not self._server_sock is None and self.g_receivers == old.self.g_receivers
                and self.on_connected.g_fired == old.self.on_connected.g_fired)

    loops = {1: Loop(a=inv, modifies=["self._stop_server_thread"], types={"self._sock": Const(None)})}


# ===================================================================== the connect step of an active connection
@contract("spec.ext:AbsSocket.connect", "C09", name="ConnectAbs")
class ConnectAbs(_SockAbs):
    """ASSUMED (POSIX): connects or fails with OSError."""
    may_raise = [OSError]


@contract("secsgem.common.tcp_connection:TcpConnection._start_receiver", "C09", name="StartReceiverAbs")
class StartReceiverAbs:
    """ASSUMED effect (a thread is started)."""

    abstract = True
    modifies = {"self.g_receivers": Int}

    def ensures(self, old):
        return self.g_receivers == old.self.g_receivers + 1


@contract("secsgem.common.tcp_client_connection:TcpClientConnection._TcpClientConnection__connect", "C09")
class ClientConnect:
    """One connect attempt of the active side: False and nothing started when the peer cannot be reached; True with the
    receiver started exactly once and `connected` reported exactly once after it (the gate of `_fire_connected` is what
    keeps the close events of a peer that closes at once behind it)."""

    uses = [SetSockOptAbs, SetBlockingAbs, ConnectAbs, StartReceiverAbs, FireConnectedAbs]
    canary = "every-path"
    may_raise = [OSError]          # setsockopt / setblocking on a socket that failed meanwhile: passed on as before

    def inputs():
        return {"self": Obj(TcpClientConnection, _settings=Obj(AbsSettings, address=Str(), port=Int(0, 65535)),
                            _sock=Const(None), _connected=Bool, g_receivers=Int(0, None),
                            _connected_handled=Obj(AbsGate, g_set=Bool), on_connected=Obj(AbsLinkEvent, g_fired=Int(0, None), g_owner=Root()))}

    def ensures(self, old, result):
        started = self.g_receivers - old.self.g_receivers
        return (started == (1 if result else 0) and self.on_connected.g_fired - old.self.on_connected.g_fired == started
                and implies(result, lambda: self._connected and self._connected_handled.g_set and not self._sock.g_closed)
                and implies(not result, lambda: self._connected == old.self._connected))


# ===================================================================== stopping the protocol threads (D9, D42)
from secsgem.common.protocol_dispatcher import ProtocolDispatcher  # noqa: E402
from spec.ext import AbsHook, AbsThread  # noqa: E402


@contract("spec.ext:AbsThread.is_alive", "C09", name="IsAliveAbs")
class IsAliveAbs:
    """ASSUMED (threading): a thread that has ended stays ended; a live one may end at any time."""

    abstract = True
    modifies = {"self.g_dead": Bool}
    returns = Bool

    def ensures(self, old, result):
        return implies(old.self.g_dead, self.g_dead) and result == (not self.g_dead)


@contract("spec.ext:AbsThread.join", "C09", name="JoinAbs")
class JoinAbs:
    """ASSUMED (threading): join() without timeout returns when the thread has ended; with a timeout it may return before."""

    abstract = True
    modifies = {"self.g_dead": Bool}

    def ensures(self, timeout, old):
        return implies(old.self.g_dead, self.g_dead) and implies(timeout is None, self.g_dead)


@contract("spec.ext:AbsHook.__call__", "C09", name="StoppedTargetAbs")
class StoppedTargetAbs:
    """ASSUMED effect (Protocol._fail_send_queue: every block still queued is resolved False), with the call-site OBLIGATION
    of D42: the queue is emptied only when the thread that takes blocks from it has ended - a block it took is its own."""

    abstract = True
    modifies = {"self.g_calls": Int}

    def requires(self):
        return {"writer-thread-has-ended": self.g_owner._receiver_thread.g_dead}

    def ensures(self, old):
        return self.g_calls == old.self.g_calls + 1


def _dispatcher():
    return Obj(ProtocolDispatcher,
               _receiver_thread=Obj(AbsThread, g_dead=Bool), _dispatcher_thread=Obj(AbsThread, g_dead=Bool),
               _receiver_thread_trigger=Obj(AbsGate, g_set=Bool), _dispatcher_thread_trigger=Obj(AbsGate, g_set=Bool),
               _stopped_target=Obj(AbsHook, g_calls=Int(0, None), g_owner=Root()),
               _stop_receiver_thread=Bool, _stop_dispatcher_thread=Bool, _stopping=Bool)


@contract("secsgem.common.protocol_dispatcher:ProtocolDispatcher._stop_threads", "C09")
class StopThreads:
    """When it returns both threads have ended and the pending sends were failed at least once AFTER that (a sender that
    queued its block while the threads were stopping is not left waiting); they are never failed while the writer thread
    may still take blocks (call-site obligation).  Not covered: stop() called on the dispatcher thread itself (the
    stand-in of threading.current_thread() is never that thread)."""

    uses = [GateSetAbs, IsAliveAbs, JoinAbs, StoppedTargetAbs]
    canary = "every-path"

    def inputs():
        return {"self": _dispatcher()}

    def raises():
        return {}

    def ensures(self, old):
        return (self._receiver_thread.g_dead and self._dispatcher_thread.g_dead and self._stop_receiver_thread
                and self._stopped_target.g_calls >= old.self._stopped_target.g_calls + 1)

    def inv(self, old):
        return (self._receiver_thread.g_dead and self._stop_receiver_thread and self._stop_dispatcher_thread
                and self._stopped_target.g_calls >= old.self._stopped_target.g_calls)

    loops = {1: Loop(a=inv, modifies=["self._dispatcher_thread.g_dead", "self._stopped_target.g_calls"])}


@contract("secsgem.common.protocol_dispatcher:ProtocolDispatcher._stop_threads", "C09", name="StopThreadsAbs")
class StopThreadsAbs:
    """The post-condition proved as StopThreads; a stopped_target that raises is passed on."""

    abstract = True
    modifies = {"self._receiver_thread.g_dead": Bool, "self._dispatcher_thread.g_dead": Bool, "self._stop_receiver_thread": Bool,
                "self._stop_dispatcher_thread": Bool, "self._stopped_target.g_calls": Int}
    may_raise = [Exception]

    def ensures(self, old):
        return (self._receiver_thread.g_dead and self._dispatcher_thread.g_dead
                and self._stopped_target.g_calls >= old.self._stopped_target.g_calls + 1)


@contract("secsgem.common.protocol_dispatcher:ProtocolDispatcher.stop", "C09")
class DispatcherStop:
    """`stopping` (senders fail their own blocks while it is set) is set only for the duration of stop(): cleared on every
    exit, also when a call-back raises - a flag left set would fail every later send of a reused endpoint."""

    uses = [IsAliveAbs, StopThreadsAbs]
    canary = "every-path"
    may_raise = [Exception]

    def inputs():
        d = _dispatcher()
        d.fields["_stopping"] = Const(False)
        return {"self": d}

    def ensures(self, old):
        return not self._stopping

    def when_raised(self, old):
        return not self._stopping


# ===================================================================== disable() of the active side (D46)
@contract("secsgem.common.tcp_connection:TcpConnection.disconnect", "C09", name="DisconnectAbs")
class DisconnectAbs:
    """ASSUMED effect (the receiver thread is asked to stop and waited for)."""

    abstract = True
    modifies = {"self.g_disconnects": Int}

    def ensures(self, old):
        return self.g_disconnects == old.self.g_disconnects + 1


@contract("secsgem.common.tcp_client_connection:TcpClientConnection.disable", "C09")
class ClientDisable:
    """Partial correctness of the stop-flag hand-shake (that the wait ends is liveness, exercised by the bounded pass): when
    disable() returns the connection is not enabled, the link was closed once, and the stop flag is NOT left set - a flag
    left behind would end the connect thread of the next enable() at its first wait, and the endpoint would never connect
    again.  The flag and the thread's life belong to the connect thread: any value at every turn of the wait."""

    uses = [IsAliveAbs, DisconnectAbs]
    canary = "every-path"

    def inputs():
        return {"self": Obj(TcpClientConnection, enabled=Bool, stop_connection_thread=Const(False),
                            connection_thread=Optional(Obj(AbsThread, g_dead=Bool)), g_disconnects=Int(0, None))}

    def raises():
        return {}

    def ensures(self, old):
        return (not self.enabled and not self.stop_connection_thread
                and self.g_disconnects == old.self.g_disconnects + (1 if old.self.enabled else 0))

    def inv(self):
        return not self.enabled

    loops = {1: Loop(a=inv, modifies=["self.stop_connection_thread", "self.connection_thread.g_dead"])}


# ===================================================================== the listener thread's stop flag (D25)
@contract("secsgem.common.tcp_server_connection:TcpServerConnection._TcpServerConnection__listen_and_accept", "C09", name="ListenAndAcceptAbs")
class ListenAndAcceptAbs:
    """Frame of ListenAndAccept as far as the stop flag is concerned: the run does not write it (it may end in OSError)."""

    abstract = True
    modifies = {"self._connected": Bool}
    may_raise = [OSError]


@contract("secsgem.common.tcp_server_connection:TcpServerConnection._TcpServerConnection__server_thread", "C09")
class ServerThread:
    """disable() waits for the stop flag to be cleared: the listener thread clears it however it ends - also when the
    address cannot be bound and the OSError is passed on."""

    uses = [ListenAndAcceptAbs]
    canary = "every-path"
    may_raise = [OSError]

    def inputs():
        return {"self": Obj(TcpServerConnection, _stop_server_thread=Bool, _connected=Bool)}

    def ensures(self):
        return not self._stop_server_thread

    def when_raised(self):
        return not self._stop_server_thread


# ===================================================================== disable() of the passive side (D25, D30)
@contract("secsgem.common.tcp_server_connection:TcpServerConnection.disable", "C09")
class ServerDisable:
    """Partial correctness of the passive side's disable(): it returns with the connection not enabled, the link closed
    once (nothing at all when it was not enabled), a live listener told to stop with its listening socket closed (so that
    its select / accept wakes up), and the stop flag not left set.  The flag and the thread's life belong to the listener
    thread: any value at every turn of the wait; that the wait ends is liveness (bounded pass)."""

    uses = [IsAliveAbs, SocketCloseNeverFailsAbs, DisconnectAbs]
    canary = "every-path"

    def inputs():
        import threading
        return {"self": Obj(TcpServerConnection, _enabled=Bool, _stop_server_thread=Const(False), _listener_lock=Const(threading.Lock()),
                            _server_thread=Optional(Obj(AbsThread, g_dead=Bool)),
                            _server_sock=Optional(Obj(AbsSocket, g_closed=Bool)), g_disconnects=Int(0, None))}

    def raises():
        return {}

    def ensures_not_enabled(self):
        return not self._enabled

    def ensures_flag_not_left_set(self):
        return not self._stop_server_thread

    def ensures_link_closed_once(self, old):
        return self.g_disconnects == old.self.g_disconnects + (1 if old.self._enabled else 0)

    def inv(self, stop_listener):
        # rely: only a live listener thread writes the flag - with none to stop it stays as disable() found it
        return not self._enabled and (stop_listener or not self._stop_server_thread)

    loops = {1: Loop(a=inv, modifies=["self._stop_server_thread", "self._server_thread.g_dead"])}


# ===================================================================== failing the pending sends (D42)
import queue as _queue  # noqa: E402

from secsgem.common.block_send_info import BlockSendInfo  # noqa: E402
from secsgem.hsms.protocol import HsmsProtocol  # noqa: E402
from spec.ext import AbsQueue  # noqa: E402


@contract("spec.ext:AbsQueue.get_nowait", "C09", name="GetNowaitAbs")
class GetNowaitAbs:
    """ASSUMED (queue.Queue, no producer at this point - the senders are the ones waiting): the next block, or queue.Empty
    when none is left."""

    abstract = True
    modifies = {"self.g_pending": Int}
    returns = Obj(BlockSendInfo, g_resolved=Const(False), g_counter=Same("self"))

    def raises(self):
        return {_queue.Empty: self.g_pending == 0}

    def ensures(self, old):
        return self.g_pending == old.self.g_pending - 1


@contract("secsgem.common.block_send_info:BlockSendInfo.resolve", "C09", name="ResolveFailedAbs")
class ResolveFailedAbs:
    """Call-out contract: each block is resolved once, and here as failed - its sender is released with False."""

    abstract = True
    modifies = {"self.g_resolved": Bool, "self.g_counter.g_failed": Int}

    def requires(self, result):
        return {"resolved-once": not self.g_resolved, "as-failed": result == False}   # noqa: E712

    def ensures(self, old):
        return self.g_resolved and self.g_counter.g_failed == old.self.g_counter.g_failed + 1


@contract("secsgem.common.protocol:Protocol._fail_send_queue", "C09")
class FailSendQueue:
    """Every block still waiting in the send queue is taken out and resolved as failed, exactly once each: no sender stays
    in BlockSendInfo.wait() (which has no timeout) after the writer thread has gone."""

    uses = [GetNowaitAbs, ResolveFailedAbs]
    canary = "every-path"

    def inputs():
        return {"self": Obj(HsmsProtocol, _send_queue=Obj(AbsQueue, g_pending=Int(0, None), g_failed=Int(0, None)))}

    def raises():
        return {}

    def ensures(self, old):
        q = self._send_queue
        return q.g_pending == 0 and q.g_failed == old.self._send_queue.g_failed + old.self._send_queue.g_pending

    def inv(self, old):
        q = self._send_queue
        return q.g_pending >= 0 and q.g_failed + q.g_pending == old.self._send_queue.g_failed + old.self._send_queue.g_pending

    def variant(self):
        return self._send_queue.g_pending

    loops = {1: Loop(a=inv, decreases=variant, modifies=["self._send_queue.g_pending", "self._send_queue.g_failed"])}
