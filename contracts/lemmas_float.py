"""Lemmas about the IEEE-754 side of F4/F8, proved with z3's floating-point theory over *all* bit patterns.

The array/loop VCs treat struct's float<->bytes conversions as uninterpreted functions (pyvc.values.UF_*);
what they need to know about those functions is exactly what is proved here, from the live class constants
`_min`/`_max` of secsgem.secs.variables.F4 / F8 (and secsgem.secs.item_number.ItemF4 / ItemF8 for C14).
"""
import struct

import z3

from pyvc.contract import contract
from pyvc.values import F32, F64, RNE, UF_F32, UF_F32B, UF_F64, UF_F64B

import secsgem.secs.variables as V


def fp(x):
    return z3.FPVal(float(x), F64)


def in_bounds_t(cls, v):
    """Term form of `not (v < cls._min or v > cls._max)` (the check BaseNumber.set performs; NumSet proves that)."""
    return z3.Not(z3.Or(z3.fpLT(v, fp(cls._min)), z3.fpGT(v, fp(cls._max))))


def finite_t(v):
    return z3.Not(z3.Or(z3.fpIsNaN(v), z3.fpIsInf(v)))


def range_axiom(cls):
    """UF-level statement justified by goal `decode-range`: every finite decoded value passes the bounds check."""
    if cls._bytes == 4:
        bs = [z3.Int(f"ax!b{k}") for k in range(4)]
        t = UF_F32(*bs)
    else:
        bs = [z3.Int(f"ax!b{k}") for k in range(8)]
        t = UF_F64(*bs)
    return z3.ForAll(bs, z3.Implies(finite_t(t), in_bounds_t(cls, t)), patterns=[t])


def _bits_model(name, term):
    return {name: {"kind": "int", "term": term}}


@contract("secsgem.secs.variables:F4", "C01", name="LemmaFloatBounds")
class LemmaFloatBounds:
    """decode-range (C02/O16): every finite binary32/binary64 value passes the class bounds check, so that decode of
    any valid encoding does not raise.  roundtrip (C01/L-RT): every accepted value can be packed (no OverflowError)
    and the value its own encoding denotes is accepted again."""

    lemma = True
    cases = [("F4", {"cls": V.F4}), ("F8", {"cls": V.F8})]

    def goals(cls):
        out = {}
        if cls._bytes == 4:
            bits = z3.BitVec("in:bits", 32)
            val = z3.fpToFP(RNE, z3.fpBVToFP(bits, F32), F64)
        else:
            bits = z3.BitVec("in:bits", 64)
            val = z3.fpBVToFP(bits, F64)
        mv = {"in:bits": {"kind": "int", "term": z3.BV2Int(bits)}}
        out["decode-range"] = ([], z3.Implies(finite_t(val), in_bounds_t(cls, val)), mv)
        v = z3.FP("in:v", F64)
        mv2 = {"in:v": {"kind": "float", "term": v}}
        if cls._bytes == 4:
            r32 = z3.fpToFP(RNE, v, F32)
            back = z3.fpToFP(RNE, r32, F64)
            overflow = z3.And(z3.fpIsInf(r32), z3.Not(z3.fpIsInf(v)))
            out["roundtrip"] = ([], z3.Implies(z3.And(in_bounds_t(cls, v), z3.Not(z3.fpIsNaN(v))),
                                               z3.And(z3.Not(overflow), in_bounds_t(cls, back))), mv2)
        else:
            out["roundtrip"] = ([], z3.Implies(z3.And(in_bounds_t(cls, v), z3.Not(z3.fpIsNaN(v))),
                                               z3.And(finite_t(v), in_bounds_t(cls, v))), mv2)
        return out

    def replay(case, name, model):
        cls = case["cls"]
        if name == "decode-range":
            bits = model.get("in:bits", 0)
            payload = bits.to_bytes(cls._bytes, "big")
            data = bytes([cls.format_code * 4 + 1, cls._bytes]) + payload
            denoted = struct.unpack(">f" if cls._bytes == 4 else ">d", payload)[0]
            try:
                obj = cls()
                obj.decode(data)
                return {"status": "spurious", "inputs": {"data": data.hex()}, "observed": repr(obj.get())}
            except Exception as exc:
                return {"status": "confirmed", "inputs": {"data": data.hex(), "denotes": repr(denoted)},
                        "failed_clauses": [f"decode of a valid finite {cls.__name__} item raised {type(exc).__name__}: {exc}"]}
        v = model.get("in:v")
        x = struct.unpack(">d", struct.pack(">Q", v["float_bits"]))[0] if isinstance(v, dict) and "float_bits" in v else 0.0
        try:
            obj = cls(x)
            enc = obj.encode()
            cls().decode(enc)
            return {"status": "spurious", "inputs": {"v": repr(x)}}
        except Exception as exc:
            return {"status": "confirmed", "inputs": {"v": repr(x)},
                    "failed_clauses": [f"{cls.__name__}({x!r}) is accepted but encode/decode of it raised {type(exc).__name__}: {exc}"]}
