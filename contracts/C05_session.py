"""C05 (and the routing clauses of C06): the real HSMS message handler against the E37 session table, for ALL header
field values.

Unit = HsmsProtocol._on_connection_message_received with everything it calls inside the repository inlined (the nine
__handle_hsms_requests* methods, the send_*_rsp helpers, the header and message constructors).  Cases fix the finite
control part (SType of the inbound message, session state, closing flag); system bytes, session id, stream, function,
W-bit, body and the set of open transactions are symbolic.  Call-outs are used through assumed contracts:
Protocol.send_message (ghost record of what was sent), ConnectionStateMachine.select/deselect (the E37 transitions -
validated exhaustively against the real machine by bounded/C05_api.fd_state_machine_contracts), Queue.put_nowait on
the requester's response queue (ghost counter per system id), EventProducer.fire, StreamsFunctions.decode."""
from pyvc.contract import *  # noqa
from pyvc.spec_intrinsics import *  # noqa

import secsgem.common
from secsgem.common.connection import Connection
from secsgem.common.events import EventProducer
from secsgem.common.state_machine import State, WrongSourceStateError
from secsgem.hsms.connection_state_machine import ConnectionState as CS, ConnectionStateMachine
from secsgem.hsms.header import HsmsHeader, HsmsSType
from secsgem.hsms.message import HsmsBlock, HsmsMessage
from secsgem.hsms.protocol import HsmsProtocol
from secsgem.secs.functions.streams_functions import StreamsFunctions
from secsgem.hsms.settings import HsmsSettings
from spec.ext import AbsQueue

NS, S, NC = CS.CONNECTED_NOT_SELECTED, CS.CONNECTED_SELECTED, CS.NOT_CONNECTED
REJECT = HsmsSType.REJECT_REQ.value


# =============================================================================================== assumed call-out contracts
@contract("secsgem.common.protocol:Protocol.send_message", "C05", name="SendMessageAbs")
class SendMessageAbs:
    """ASSUMED (call-out): handing a message to the send path records it as the last frame written (ghost)."""

    abstract = True
    modifies = {"self.g_nsent": Int, "self.g_stype": Int, "self.g_system": Int, "self.g_byte2": Int, "self.g_byte3": Int,
                "self.g_session": Int, "self.g_body": Int}
    returns = Bool

    def ensures(self, message, old):
        h = message._blocks[0]._header
        return (self.g_nsent == old.self.g_nsent + 1 and self.g_stype == h._s_type.value and self.g_system == h._system
                and self.g_byte2 == h._stream + ite(h._require_response, 128, 0) and self.g_byte3 == h._function
                and self.g_session == h._device_id and self.g_body == len(message._blocks[0]._data))


@contract("secsgem.hsms.connection_state_machine:ConnectionStateMachine.select", "C05", name="SMSelect")
class SMSelect:
    """ASSUMED at call sites, validated exhaustively on the real machine (FD): NOT SELECTED -> SELECTED, else
    WrongSourceStateError and no change."""

    abstract = True
    sm_source, sm_target = (NS,), S
    modifies = {"self._current_state": Obj(State, _state=Const(S))}

    def raises(self):
        return {WrongSourceStateError: self._current_state._state is not NS}


@contract("secsgem.hsms.connection_state_machine:ConnectionStateMachine.deselect", "C05", name="SMDeselect")
class SMDeselect:
    """ASSUMED at call sites, validated on the real machine (FD): SELECTED -> NOT SELECTED, else WrongSourceStateError."""

    abstract = True
    sm_source, sm_target = (S,), NS
    modifies = {"self._current_state": Obj(State, _state=Const(NS))}

    def raises(self):
        return {WrongSourceStateError: self._current_state._state is not S}


@contract("spec.ext:AbsQueue.put_nowait", "C05", name="PutNowaitAbs")
class PutNowaitAbs:
    """ASSUMED (A-EXT): the requester's response queue receives the message (ghost counter per queue)."""

    abstract = True
    modifies = {"self.g_puts": Int}

    def ensures(self, old):
        return self.g_puts == old.self.g_puts + 1


@contract("secsgem.common.events:EventProducer.fire", "C05", name="FireAbs")
class FireAbs:
    """ASSUMED (call-out): counts message_received events (delivery to the application) and all other events."""

    abstract = True
    modifies = {"self.g_delivered": Int, "self.g_other": Int}

    def ensures(self, event, old):
        if event == "message_received":
            return self.g_delivered == old.self.g_delivered + 1 and self.g_other == old.self.g_other
        return self.g_delivered == old.self.g_delivered and self.g_other == old.self.g_other + 1


@contract("secsgem.secs.functions.streams_functions:StreamsFunctions.decode", "C05", name="DecodeForLogAbs")
class DecodeForLogAbs:
    """ASSUMED: the decode that is only used for logging returns something or raises (uncatalogued S/F, malformed body)."""

    abstract = True
    returns = Int

    def raises(self):
        return {ValueError: fresh_bool("decode_fails")}


# =============================================================================================== the handler
STYPES = [HsmsSType.DATA_MESSAGE, HsmsSType.SELECT_REQ, HsmsSType.SELECT_RSP, HsmsSType.DESELECT_REQ, HsmsSType.DESELECT_RSP,
          HsmsSType.LINKTEST_REQ, HsmsSType.LINKTEST_RSP, HsmsSType.REJECT_REQ, HsmsSType.SEPARATE_REQ]
REQ_RSP = {HsmsSType.SELECT_REQ: HsmsSType.SELECT_RSP, HsmsSType.DESELECT_REQ: HsmsSType.DESELECT_RSP,
           HsmsSType.LINKTEST_REQ: HsmsSType.LINKTEST_RSP}


def proto_obj(state, closing):
    return Obj(HsmsProtocol,
               _connection_state=Obj(ConnectionStateMachine, _current_state=Obj(State, _state=Const(state))),
               _Protocol__connection=Obj(Connection, _disconnecting=Const(closing)),
               _response_queues=MapOf(AbsQueue, g_puts=Int),
               _event_producer=Obj(EventProducer, g_delivered=Int, g_other=Int),
               _settings=Obj(HsmsSettings, streams_functions=Obj(StreamsFunctions)),
               g_nsent=Int, g_stype=Int, g_system=Int, g_byte2=Int, g_byte3=Int, g_session=Int, g_body=Int)


def message_obj(stype):
    hdr = Obj(HsmsHeader, _system=Int(0, 2 ** 32 - 1), _device_id=Int(0, 65535), _stream=Int(0, 127), _function=Int(0, 255),
              _require_response=Bool, _p_type=Int(0, 255), _s_type=Const(stype))
    return Obj(HsmsMessage, _blocks=FixedList(Obj(HsmsBlock, _header=hdr, _data=Bytes())))


def session_step_raises(case):
    """The handler lets WrongSourceStateError escape (after having sent the response) when the peer asks for the state the
    session is already in; the dispatcher logs it and goes on.  E37 answers these with a non-zero status; the property
    does not judge the status byte, and the state is unchanged - stated, not hidden."""
    st, state, closing = case["stype"], case["state"], case["closing"]
    return (not closing) and ((st is HsmsSType.SELECT_REQ and state is S) or (st is HsmsSType.DESELECT_REQ and state is NS))


@contract("secsgem.hsms.protocol:HsmsProtocol._on_connection_message_received", "C05")
class OnMessage:
    """E37 session step for every inbound message, all field values: next state, exactly the prescribed response with the
    request's system bytes (or Reject while closing / Reject 'not selected' for data), delivery to the application only
    in SELECTED, routing of responses to exactly the requester with these system bytes."""

    cases = [(f"{st.name}.{state.name[10:]}.{'closing' if closing else 'open'}", {"stype": st, "state": state, "closing": closing})
             for st in STYPES for state in (NS, S) for closing in (False, True)]
    uses = [SendMessageAbs, SMSelect, SMDeselect, PutNowaitAbs, FireAbs, DecodeForLogAbs]

    def inputs(stype, state, closing):
        return {"self": proto_obj(state, closing), "_": Const(None), "message": message_obj(stype)}

    def raises(case):
        return {WrongSourceStateError: session_step_raises(case)}

    def ensures(self, message, old, case):
        st, state, closing = case["stype"], case["state"], case["closing"]
        h = message._blocks[0]._header
        sys = h._system
        cur = self._connection_state._current_state._state
        sent = self.g_nsent - old.self.g_nsent
        q, q0 = self._response_queues, old.self._response_queues
        was_open = sys in q0
        routed = q[sys].g_puts - q0[sys].g_puts
        delivered = self._event_producer.g_delivered - old.self._event_producer.g_delivered
        others_untouched = forall(0, 2 ** 32, lambda k: implies(k != sys, lambda: q[k].g_puts == q0[k].g_puts))
        out = {"other-requesters-untouched": others_untouched}
        if st in REQ_RSP:
            if closing:
                out["state"] = cur is state
                out["one-reject-with-request-system-bytes"] = (sent == 1 and self.g_stype == REJECT and self.g_system == sys
                                                               and self.g_byte2 == st.value and self.g_byte3 == 4)
            else:
                out["state"] = cur is {HsmsSType.SELECT_REQ: S, HsmsSType.DESELECT_REQ: NS, HsmsSType.LINKTEST_REQ: state}[st]
                out["one-matching-response-with-request-system-bytes"] = (sent == 1 and self.g_stype == REQ_RSP[st].value
                                                                          and self.g_system == sys)
            out["not-delivered-not-routed"] = delivered == 0 and routed == 0
        elif st is HsmsSType.SELECT_RSP or st is HsmsSType.DESELECT_RSP:
            frm, to = (NS, S) if st is HsmsSType.SELECT_RSP else (S, NS)
            if state is frm:
                out["state"] = ite(was_open and h._function == 0, cur is to, cur is state)
            else:
                out["state"] = cur is state
            out["nothing-sent-nothing-delivered"] = sent == 0 and delivered == 0
            out["routed-to-requester-exactly-once-iff-open"] = routed == ite(was_open, 1, 0)
        elif st is HsmsSType.LINKTEST_RSP or st is HsmsSType.REJECT_REQ:
            out["state"] = cur is state
            out["nothing-sent-nothing-delivered"] = sent == 0 and delivered == 0
            out["routed-to-requester-exactly-once-iff-open"] = routed == ite(was_open, 1, 0)
        elif st is HsmsSType.SEPARATE_REQ:
            out["state"] = cur is NS
            out["nothing-sent-delivered-routed"] = sent == 0 and delivered == 0 and routed == 0
        else:   # data message
            out["state"] = cur is state
            if state is not S:
                out["not-selected.one-reject-not-delivered"] = (sent == 1 and self.g_stype == REJECT and self.g_system == sys
                                                                and self.g_byte2 == 0 and self.g_byte3 == 4
                                                                and delivered == 0 and routed == 0)
            else:
                # a reply never carries the W-bit: a message with W-bit is a primary of the peer also when its system bytes
                # happen to equal those of an own open transaction (system bytes are unique per originator only) - D40
                is_reply = was_open and not h._require_response
                out["selected.delivered-exactly-once"] = (sent == 0 and routed == ite(is_reply, 1, 0)
                                                          and delivered == ite(is_reply, 0, 1))
        return out

    def replay(case, name, model):
        """Native demonstration: the same step on a real HsmsProtocol (in-memory connection, synchronous dispatcher) with
        the model's header fields, with and without an open transaction for these system bytes, against the E37 table."""
        from bounded import C05_api as A
        from bounded import harness as H
        st, state, closing = case["stype"], case["state"], case["closing"]
        pre = "in:message._blocks[0]._header."
        system = int(model.get(pre + "_system") or 0)
        stream, function = int(model.get(pre + "_stream") or 0), int(model.get(pre + "_function") or 0)
        w = bool(model.get(pre + "_require_response"))
        A.neutralise_threads()
        failed, seen = [], []
        with H.virtual_timers():
            for open_kind in ("same", "none"):
                open_system = system if open_kind == "same" else None
                data = (stream, function, w, b"") if st.value == 0 else None
                want_state, want_out, want_deliv = A.expect(state.name, closing, st.value, system, open_system)
                if st.value in (2, 4) and function != 0 and open_kind == "same":
                    want_state = state.name          # a refused Select/Deselect changes nothing
                if st.value == 0 and closing and state is S:
                    pass
                got_state, frames, delivered, routed = A.run_step("passive", state.name, closing, st.value, system, open_system, data) \
                    if st.value == 0 else _control_step(A, H, state.name, closing, st.value, system, open_system, function)
                got = [(f["stype"], f["stream"] | (0x80 if f["w"] else 0), f["function"], f["system"]) for f in frames]
                seen.append({"open": open_kind, "state": got_state, "frames": got, "delivered": len(delivered), "queued": routed})
                if got_state != want_state:
                    failed.append(f"[open transaction: {open_kind}] state {got_state}, E37: {want_state}")
                if want_out is not None:
                    ok = len(got) == len(want_out) and all(g[0] == o[0] and (o[1] is None or g[1] == o[1]) and (o[2] is None or g[2] == o[2]) and g[3] == system
                                                           for g, o in zip(got, want_out))
                    if not ok:
                        failed.append(f"[open transaction: {open_kind}] frames written {got}, E37: {want_out} with system bytes {system}")
                if st.value in (2, 4, 6, 7) and open_kind == "same" and routed != 1:
                    failed.append(f"response with the requester's system bytes queued {routed} times")
                if st.value != 0 and delivered:
                    failed.append("a control message reached the application")
        return {"status": "confirmed" if failed else "spurious", "failed_clauses": failed,
                "inputs": {"stype": st.name, "state": state.name, "closing": closing, "system": system, "stream": stream, "function": function, "w": w},
                "observed": seen}


def _control_step(A, H, state, closing, stype, system, open_system, function):
    proto, conn, log = A.setup("passive", state, closing, open_system)
    try:
        conn.feed(H.frame(stype, system, 0, function, False, b"", session=0xFFFF))
        routed = None
        if open_system is not None and open_system in proto._response_queues:
            routed = proto._response_queues[open_system].qsize()
        return A.state_of(proto), conn.frames(), list(log["message_received"]), routed
    finally:
        conn._disconnecting = False
        H.shutdown(proto, conn)
