"""C04: HSMS frame codec and segmentation-independent reassembly."""
from pyvc.contract import *  # noqa
from pyvc.spec_intrinsics import *  # noqa
from spec import e5, e37

import secsgem.hsms
import secsgem.hsms.header as HH
import secsgem.hsms.message as HM
from secsgem.hsms.header import HsmsHeader, HsmsSType
from secsgem.hsms.message import HsmsBlock

STYPE_CASES = [(st.name, {"stype": st}) for st in HsmsSType]


def header_obj(stype=None):
    return Obj(HsmsHeader, _system=Int, _device_id=Int, _stream=Int, _function=Int, _require_response=Bool, _p_type=Int,
               _s_type=Const(stype) if stype is not None else Const(HsmsSType.DATA_MESSAGE))


def in_ranges(h):
    return (0 <= h._device_id < 65536 and 0 <= h._stream < 128 and 0 <= h._function < 256 and 0 <= h._p_type < 256
            and 0 <= h._system < 2 ** 32)


@contract("secsgem.hsms.header:HsmsHeader.encode", "C04")
class HeaderEncode:
    """O24: exactly the 10 header bytes of E37 for fields in their ranges; struct.error outside."""

    cases = STYPE_CASES

    def inputs(stype):
        return {"self": header_obj(stype)}

    def requires(self):
        return 0 <= self._stream < 128      # the W-bit is folded into the stream byte: stream must fit 7 bits

    def raises(self):
        import struct
        return {struct.error: not in_ranges(self)}

    def ensures(self, result):
        return result == e37.header(self._device_id, self._require_response, self._stream, self._function, self._p_type,
                                    self._s_type.value, self._system)


@contract("secsgem.hsms.header:HsmsHeader.decode", "C04")
class HeaderDecode:
    """O25: inverse of encode for every 10-byte string with an assigned SType; ValueError for unassigned STypes."""

    cases = None

    def inputs():
        return {"cls": Const(HsmsHeader), "data": Bytes(length=10)}

    def raises(data):
        return {ValueError: not (0 <= data[5] <= 7 or data[5] == 9)}

    def ensures(data, result):
        return (type(result) is HsmsHeader
                and result._device_id == data[0] * 256 + data[1]
                and result._stream == data[2] % 128 and result._require_response == (data[2] >= 128)
                and result._function == data[3] and result._p_type == data[4] and result._s_type.value == data[5]
                and result._system == e5.uint_at(data, 6, 4))


@contract("secsgem.common.message:Block.encode", "C04")
class BlockEncode:
    """O26: frame == be32(10 + len(body)) ++ header ++ body."""

    cases = STYPE_CASES

    def inputs(stype):
        return {"self": Obj(HsmsBlock, _header=header_obj(stype), _data=Bytes())}

    def requires(self):
        return in_ranges(self._header) and len(self._data) + 10 < 2 ** 32

    def raises():
        return {}

    def ensures(self, result):
        h = self._header
        n = len(self._data)
        return (len(result) == 14 + n and e5.uint_at(result, 0, 4) == 10 + n
                and seq_eq_at(result, 4, e37.header(h._device_id, h._require_response, h._stream, h._function, h._p_type,
                                                    h._s_type.value, h._system))
                and forall(0, n, lambda t: result[14 + t] == self._data[t]))


@contract("secsgem.common.message:Block.decode", "C04")
class BlockDecode:
    """O26: decode is the inverse on every well-formed frame (length field consistent with the byte count)."""

    cases = None

    def inputs():
        return {"cls": Const(HsmsBlock), "data": Bytes(min_len=14)}

    def requires(data):
        return e5.uint_at(data, 0, 4) + 4 == len(data)

    def raises(data):
        return {ValueError: not (0 <= data[9] <= 7 or data[9] == 9)}

    def samples(rnd):
        import struct
        for _ in range(40):
            body = bytes(rnd.getrandbits(8) for _ in range(rnd.choice((0, 0, 1, 5, 40))))
            hdr = bytearray(rnd.getrandbits(8) for _ in range(10))
            hdr[5] = rnd.choice((0, 1, 2, 3, 4, 5, 6, 7, 9, 9, 8, 10, 255, 0, 0))
            yield {"data": struct.pack(">L", 10 + len(body)) + bytes(hdr) + body}

    def ensures(data, result):
        h = result._header
        n = len(data) - 14
        return (type(result) is HsmsBlock and type(h) is HsmsHeader
                and h._device_id == data[4] * 256 + data[5] and h._stream == data[6] % 128
                and h._require_response == (data[6] >= 128) and h._function == data[7] and h._p_type == data[8]
                and h._s_type.value == data[9] and h._system == e5.uint_at(data, 10, 4)
                and len(result._data) == n and forall(0, n, lambda t: result._data[t] == data[14 + t]))


# =============================================================================================== ByteQueue (real code)
import threading
from secsgem.common.byte_queue import ByteQueue

_COND = threading.Condition()


def bq_obj():
    return Obj(ByteQueue, _buffer=ByteArray(), _buffer_lock=Const(_COND))


def arrived_total(I=None):
    return None


@contract("secsgem.common.byte_queue:ByteQueue.append", "C04")
class BQAppend:
    """buffer' == buffer ++ data"""

    cases = None

    def inputs():
        return {"self": bq_obj(), "data": Bytes()}

    def raises():
        return {}

    def ensures(self, data, old):
        n0 = len(old.self._buffer)
        return (len(self._buffer) == n0 + len(data)
                and forall(0, n0, lambda t: self._buffer[t] == old.self._buffer[t])
                and forall(0, len(data), lambda t: self._buffer[n0 + t] == data[t]))


@contract("secsgem.common.byte_queue:ByteQueue.pop", "C04")
class BQPop:
    """returns the first min(size, len) bytes and removes exactly those"""

    cases = None

    def inputs():
        return {"self": bq_obj(), "size": Int(0, None)}

    def raises():
        return {}

    def ensures(self, size, old, result):
        n0 = len(old.self._buffer)
        k = ite(size < n0, size, n0)
        return (len(result) == k and forall(0, k, lambda t: result[t] == old.self._buffer[t])
                and len(self._buffer) == n0 - k and forall(0, n0 - k, lambda t: self._buffer[t] == old.self._buffer[k + t]))


@contract("secsgem.common.byte_queue:ByteQueue.wait_for", "C04", name="BQWaitForBuffered")
class BQWaitForBuffered:
    """With the bytes already buffered (the only way the HSMS framing loop calls it, see ProcessReceived): returns exactly
    the first `size` bytes and removes them unless peek."""

    cases = [("peek", {"peek": True}), ("pop", {"peek": False})]

    def inputs(peek):
        return {"self": bq_obj(), "size": Int(0, None), "peek": Const(peek)}

    def requires(self, size):
        return len(self._buffer) >= size

    def raises():
        return {}

    def ensures(self, size, peek, old, result):
        n0 = len(old.self._buffer)
        keep = 0 if peek else size
        return (len(result) == size and len(self._buffer) == n0 - keep
                and forall(0, size, lambda t: result[t] == old.self._buffer[t])
                and forall(0, n0 - keep, lambda t: self._buffer[t] == old.self._buffer[keep + t]))


@contract("secsgem.common.byte_queue:ByteQueue.wait_for", "C17")
class BQWaitFor:
    """Under the rely 'other threads only append': returns exactly `size` bytes = the first `size` bytes of
    (buffer ++ arrivals); removes them unless peek; nothing else is lost or reordered.  (Registered for C17: the SECS-I
    loops are the callers that really wait; the HSMS framing loop only calls wait_for with its bytes buffered.)"""

    cases = [("peek", {"peek": True}), ("pop", {"peek": False})]
    rely = [("self._buffer", "append")]
    returns = ByteArray()

    def inputs(peek):
        return {"self": bq_obj(), "size": Int(0, None), "peek": Const(peek)}

    def raises():
        return {}

    def ensures(self, size, peek, old, result):
        n0 = len(old.self._buffer)
        keep = 0 if peek else size
        return (len(result) == size
                and len(self._buffer) + keep >= n0 and len(self._buffer) + keep >= size
                # the old content is still in front, in order: result/new buffer are cut from old ++ arrivals
                and forall(0, ite(size < n0, size, n0), lambda t: result[t] == old.self._buffer[t])
                and forall(0, n0 - keep, lambda t: self._buffer[t] == old.self._buffer[keep + t])
                and implies(peek, lambda: forall(0, size, lambda t: result[t] == self._buffer[t])))


# =============================================================================================== ghost byte stream
# The receive buffer seen through the stream of *all bytes that ever arrive* (ghost g_stream) and a read cursor
# (ghost g_cursor): buffer == g_stream[g_cursor : g_cursor + len(buffer)].  TCP segmentation does not exist in this
# view, so what is proved about the framing loop holds for every partition of the byte stream into segments.
from secsgem.common.protocol_dispatcher import ProtocolDispatcher
from secsgem.hsms.protocol import HsmsProtocol


def abs_inv(q):
    return (q.g_cursor >= 0 and q.g_cursor + len(q._buffer) <= len(q.g_stream)
            and forall(0, len(q._buffer), lambda t: q._buffer[t] == q.g_stream[q.g_cursor + t]))


@contract("secsgem.common.byte_queue:ByteQueue.wait_for", "C04", name="BQWaitForAbs")
class BQWaitForAbs:
    """ASSUMED at call sites (A-BQ-ABS): wait_for(n) returns the next n bytes of the stream, consuming them unless
    peek.  Justified by BQAppend/BQPop/BQWaitFor (verified on the real methods: front consumption, no loss, no
    reordering under append-only interference) and by the definition of the ghost stream as the concatenation of all
    appends."""

    abstract = True
    modifies = {"self._buffer": ByteArray(), "self.g_cursor": Int}
    returns = ByteArray()

    def requires(self, size):
        return size >= 0 and abs_inv(self)

    def ensures(self, size, peek, old, result):
        c = old.self.g_cursor
        return (c + size <= len(self.g_stream) and len(result) == size
                and forall(0, size, lambda t: result[t] == self.g_stream[c + t])
                and self.g_cursor == c + ite(peek, 0, size) and abs_inv(self))


@contract("secsgem.common.byte_queue:ByteQueue.__len__", "C04", name="BQLenAbs")
class BQLenAbs:
    """ASSUMED at call sites (A-BQ-ABS): the current number of buffered bytes (other threads may have appended)."""

    abstract = True
    modifies = {"self._buffer": ByteArray()}
    returns = Int

    def requires(self):
        return abs_inv(self)

    def ensures(self, old, result):
        return result == len(self._buffer) and result >= len(old.self._buffer) and abs_inv(self)


@contract("secsgem.common.byte_queue:ByteQueue.wait_for", "C04", name="BQWaitForBufferedAbs")
class BQWaitForBufferedAbs(BQWaitForAbs):
    """Call-site contract used by the HSMS framing loop: wait_for(n) is only called with at least n bytes buffered (an
    obligation at every call), and then returns the next n bytes of the stream.  Justified by BQWaitForBuffered /
    BQAppend / BQPop verified on the real methods."""

    abstract = True

    def requires(self, size):
        return size >= 0 and abs_inv(self) and len(self._buffer) >= size


def frame_matches(block, stream, a, b):
    """block is the decode of the frame stream[a:b]."""
    h = block._header
    return (b - a >= 14 and len(block._data) == b - a - 14
            and forall(0, b - a - 14, lambda t: block._data[t] == stream[a + 14 + t])
            and h._device_id == stream[a + 4] * 256 + stream[a + 5] and h._stream == stream[a + 6] % 128
            and h._require_response == (stream[a + 6] >= 128) and h._function == stream[a + 7]
            and h._p_type == stream[a + 8] and h._s_type.value == stream[a + 9]
            and h._system == e5.uint_at(stream, a + 10, 4))


@contract("secsgem.common.protocol_dispatcher:ProtocolDispatcher.queue_block", "C04", name="QueueBlockAbs")
class QueueBlockAbs:
    """Call-out contract: the k-th block handed to the dispatcher must be the decode of the k-th frame of the stream
    (O28: none lost, duplicated, merged; same order)."""

    abstract = True
    modifies = {"self.g_count": Int}

    def requires(self, source, block):
        q = source._receive_buffer
        k = self.g_count
        return 0 <= k and k + 1 < len(q.g_starts) and frame_matches(block, q.g_stream, q.g_starts[k], q.g_starts[k + 1])

    def ensures(self, old):
        return self.g_count == old.self.g_count + 1


def block_result_spec():
    return Obj(HsmsBlock, _header=Obj(HsmsHeader, _system=Int, _device_id=Int, _stream=Int, _function=Int,
                                      _require_response=Bool, _p_type=Int, _s_type=Obj(HsmsSType, value=Int)), _data=Bytes())


BlockDecode.returns = staticmethod(block_result_spec)


def stream_wellformed(q):
    """g_starts are the frame boundaries of g_stream: complete, valid frames, then an incomplete rest."""
    s = q.g_stream
    n = len(q.g_starts)
    last = q.g_starts[n - 1]
    return (q.g_starts[0] >= 0
            and forall(0, n - 1, lambda j: q.g_starts[j + 1] == q.g_starts[j] + 4 + e5.uint_at(s, q.g_starts[j], 4)
                       and q.g_starts[j] >= 0 and q.g_starts[j] + 14 <= q.g_starts[j + 1] and q.g_starts[j + 1] <= len(s)
                       and (s[q.g_starts[j] + 9] <= 7 or s[q.g_starts[j] + 9] == 9))
            and last <= len(s)
            and (len(s) - last < 4 or len(s) - last < 4 + e5.uint_at(s, last, 4)))


@contract("secsgem.hsms.protocol:HsmsProtocol._process_received_data", "C04")
class ProcessReceived:
    """O27-O29: starting at a frame boundary of the byte stream, the framing loop hands the dispatcher exactly the
    decodes of the successive frames (one call per frame, in order) and stops at a frame boundary with fewer than
    4 bytes buffered - whatever the segmentation, which does not occur in the ghost-stream view."""

    cases = None
    uses = [BQWaitForBufferedAbs, BQLenAbs, QueueBlockAbs, BlockDecode]

    def inputs():
        q = Obj(ByteQueue, _buffer=ByteArray(), g_stream=Bytes(), g_cursor=Int(0, None), g_starts=ListOf(Int, min_len=1))
        return {"self": Obj(HsmsProtocol, _receive_buffer=q, _thread=Obj(ProtocolDispatcher, g_count=Int(0, None)))}

    def requires(self):
        q = self._receive_buffer
        k = self._thread.g_count
        return abs_inv(q) and stream_wellformed(q) and k < len(q.g_starts) and q.g_cursor == q.g_starts[k]

    def raises():
        return {}

    def ensures(self, old):
        q = self._receive_buffer
        k = self._thread.g_count
        n = len(q._buffer)
        return (abs_inv(q) and k >= old.self._thread.g_count and k < len(q.g_starts) and q.g_cursor == q.g_starts[k]
                # O29: no complete frame is left in the buffer
                and (n < 4 or n < 4 + e5.uint_at(q.g_stream, q.g_cursor, 4)))

    def inv_1(self, old):
        q = self._receive_buffer
        k = self._thread.g_count
        return abs_inv(q) and k >= old.self._thread.g_count and k < len(q.g_starts) and q.g_cursor == q.g_starts[k]

    loops = {1: Loop(a=inv_1, modifies=["self._receive_buffer._buffer", "self._receive_buffer.g_cursor", "self._thread.g_count"])}


# =============================================================================================== C09: non-blocking framing
@contract("secsgem.common.byte_queue:ByteQueue.wait_for", "C09", name="BQWaitForNonBlocking")
class BQWaitForNonBlocking(BQWaitForAbs):
    """Call-site obligation for the receiver thread (O52): wait_for(n) may only be called with at least n bytes already
    buffered, i.e. the framing loop pops complete frames only.  A peer that stops sending inside a length field, header
    or body can then not park the receiver thread in a wait - which is what lets _on_disconnected / disable() finish."""

    abstract = True

    def requires(self, size):
        return size >= 0 and abs_inv(self) and len(self._buffer) >= size


@contract("secsgem.common.byte_queue:ByteQueue.__len__", "C09", name="BQLenAbs09")
class BQLenAbs09(BQLenAbs):
    abstract = True


@contract("secsgem.common.protocol_dispatcher:ProtocolDispatcher.queue_block", "C09", name="QueueBlockAbs09")
class QueueBlockAbs09(QueueBlockAbs):
    abstract = True


@contract("secsgem.common.message:Block.decode", "C09", name="BlockDecode09")
class BlockDecode09(BlockDecode):
    abstract = True


@contract("secsgem.hsms.protocol:HsmsProtocol._process_received_data", "C09")
class ProcessReceivedNonBlocking(ProcessReceived):
    """O52 + O27-O29: the framing loop never waits for missing bytes (every wait_for has its bytes buffered) and still
    hands over exactly the complete frames; an incomplete frame stays buffered."""

    uses = [BQWaitForNonBlocking, BQLenAbs09, QueueBlockAbs09, BlockDecode09]

    def replay(case, name, model):
        """Native demonstration for a refuted non-blocking obligation: a peer that stops inside a frame and then closes."""
        if "wait_for.requires" not in name:
            return None
        import threading
        from bounded import harness as H
        proto, conn, log = H.make_hsms()
        proto.enable()
        conn.connect()
        partial = H.frame(0, 7, 1, 1, True, b"x" * 20)[:9]        # length field + 5 of 30 bytes, then silence
        conn.feed(partial)
        import time
        time.sleep(0.1)
        t = threading.Thread(target=conn.close, daemon=True)
        t.start()
        t.join(2.0)
        hung = t.is_alive()
        state = proto.connection_state.current.name
        return {"status": "confirmed" if hung or state != "NOT_CONNECTED" else "spurious",
                "inputs": {"fed": partial.hex(), "then": "peer close"},
                "failed_clauses": ["disconnect handling did not finish within 2 s: the receiver thread is parked in ByteQueue.wait_for for the "
                                   "rest of the frame" if hung else f"state {state}"],
                "observed": {"close_returned": not hung, "connection_state": state}}
