"""SEMI E4 (SECS-I) block layout: length byte (10 + data bytes), 10-byte header:
R-bit << 15 | device id (2), W-bit << 7 | stream (1), function (1), E-bit << 15 | block number (2), system bytes (4);
up to 244 data bytes; 2-byte checksum = arithmetic sum of header and data bytes."""
from pyvc.spec_intrinsics import *  # noqa
from spec.e5 import be_u, uint_at

BLOCK_DATA_MAX = 244


def header(device, rbit, wbit, stream, function, block, ebit, system):
    return (be_u(device + ite(rbit, 32768, 0), 2) + bytes([stream + ite(wbit, 128, 0), function])
            + be_u(block + ite(ebit, 32768, 0), 2) + be_u(system, 4))
