"""SEMI E5 item encoding, written from the standard (format byte = format code << 2 | number of length bytes,
1..3 big-endian length bytes, payload).  Pure Python in the pyvc subset: dual use as symbolic spec and concrete oracle."""
from pyvc.spec_intrinsics import *  # noqa


def min_k(n):
    """Minimal number of length bytes for a payload of n bytes."""
    if n > 0xFFFF:
        return 3
    if n > 0xFF:
        return 2
    return 1


def be_u(n, k):
    """k-byte big-endian unsigned representation of n (0 <= n < 256**k), k concrete."""
    return bytes([(n // (256 ** (k - 1 - i))) % 256 for i in range(k)])


def header(fc, n, k):
    """Item header for format code fc, payload length n, using k length bytes (k concrete)."""
    return bytes([fc * 4 + k]) + be_u(n, k)


def header_min(fc, n):
    """Canonical header: minimal number of length bytes."""
    if n > 0xFFFF:
        return header(fc, n, 3)
    if n > 0xFF:
        return header(fc, n, 2)
    return header(fc, n, 1)


def be_s(v, k):
    """k-byte big-endian two's complement of v (-(256**k)/2 <= v < (256**k)/2)."""
    if v < 0:
        return be_u(v + 256 ** k, k)
    return be_u(v, k)


# --- numeric items (E5 format codes, octal): size in bytes and kind (u unsigned, s two's complement, f IEEE-754)
NUM = {
    0o51: (1, "u"), 0o52: (2, "u"), 0o54: (4, "u"), 0o50: (8, "u"),
    0o31: (1, "s"), 0o32: (2, "s"), 0o34: (4, "s"), 0o30: (8, "s"),
    0o44: (4, "f"), 0o40: (8, "f"),
}
FLT_MAX = 3.4028234663852886e38          # (2 - 2**-23) * 2**127
DBL_MAX = 1.7976931348623157e308         # (2 - 2**-52) * 2**1023


def num_size(fc):
    return NUM[fc][0]


def num_kind(fc):
    return NUM[fc][1]


def num_in_range(fc, v):
    """v is a value E5 can represent in an item of format fc (floats: every value incl. NaN/inf has an encoding,
    but only values that round to a finite binary32 are representable as F4 without overflow)."""
    size, kind = NUM[fc]
    if kind == "u":
        return 0 <= v < 256 ** size
    if kind == "s":
        return -(256 ** size) // 2 <= v < (256 ** size) // 2
    return True


def num_bytes(fc, v):
    """Big-endian payload bytes of one element."""
    size, kind = NUM[fc]
    if kind == "u":
        return be_u(v, size)
    if kind == "s":
        return be_s(v, size)
    if size == 4:
        return f32_bytes(v)
    return f64_bytes(v)


def uint_at(data, pos, size):
    total = 0
    for t in range(size):
        total = total * 256 + data[pos + t]
    return total


def num_value(fc, data, pos):
    """Value denoted by the element at data[pos:pos+size]."""
    size, kind = NUM[fc]
    if kind == "u":
        return uint_at(data, pos, size)
    if kind == "s":
        u = uint_at(data, pos, size)
        if u >= (256 ** size) // 2:
            return u - 256 ** size
        return u
    if size == 4:
        return f32_of_bytes(data, pos)
    return f64_of_bytes(data, pos)


def num_eq(fc, a, b):
    if NUM[fc][1] == "f":
        return float_eq(a, b)
    return a == b


def hlen(n):
    """Length of the canonical header for payload length n."""
    return 1 + min_k(n)


# --- text items.  A (0o20): one byte per character, code unit == code point (the library extends 7-bit ASCII to
# latin-1 so that "all byte values in text" round-trip).  J (0o21): JIS X 0201: ASCII with 0x5C = YEN SIGN and
# 0x7E = OVERLINE, 0xA1..0xDF = halfwidth katakana U+FF61..U+FF9F; code units the standard leaves unassigned are
# mapped to the code point of the same number.
def text_char(fc, b):
    """Code point denoted by code unit b in a text item of format fc."""
    if fc == 0o21:
        if b == 0x5C:
            return 0xA5
        if b == 0x7E:
            return 0x203E
        if 0xA1 <= b <= 0xDF:
            return b + 0xFEC0
    return b


def text_encodable(fc, ch):
    """ch (a code point) has a code unit in format fc."""
    if fc == 0o21:
        if ch == 0xA5 or ch == 0x203E:
            return True
        if 0xFF61 <= ch <= 0xFF9F:
            return True
        if ch == 0x5C or ch == 0x7E or 0xA1 <= ch <= 0xDF:
            return False
    return 0 <= ch <= 255


def text_byte(fc, ch):
    """Code unit of code point ch (must be encodable)."""
    if fc == 0o21:
        if ch == 0xA5:
            return 0x5C
        if ch == 0x203E:
            return 0x7E
        if 0xFF61 <= ch <= 0xFF9F:
            return ch - 0xFEC0
    return ch
