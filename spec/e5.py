"""SEMI E5 item encoding, written from the standard (format byte = format code << 2 | number of length bytes,
1..3 big-endian length bytes, payload).  Pure Python in the pyvc subset: dual use as symbolic spec and concrete oracle."""
from pyvc.spec_intrinsics import *  # noqa


def min_k(n):
    """Minimal number of length bytes for a payload of n bytes."""
    if n > 0xFFFF:
        return 3
    if n > 0xFF:
        return 2
    return 1


def be_u(n, k):
    """k-byte big-endian unsigned representation of n (0 <= n < 256**k), k concrete."""
    return bytes([(n // (256 ** (k - 1 - i))) % 256 for i in range(k)])


def header(fc, n, k):
    """Item header for format code fc, payload length n, using k length bytes (k concrete)."""
    return bytes([fc * 4 + k]) + be_u(n, k)


def header_min(fc, n):
    """Canonical header: minimal number of length bytes."""
    if n > 0xFFFF:
        return header(fc, n, 3)
    if n > 0xFF:
        return header(fc, n, 2)
    return header(fc, n, 1)


def be_s(v, k):
    """k-byte big-endian two's complement of v (-(256**k)/2 <= v < (256**k)/2)."""
    if v < 0:
        return be_u(v + 256 ** k, k)
    return be_u(v, k)
