"""Independent reference encoder / decoder for SEMI E5 items (concrete oracle for replays, FD and bounded passes).

Written from the standard's item format, not from the library: an item is a format byte (format code << 2 | number of
length bytes 1..3), the length bytes (big-endian byte count, for lists the element count), then the payload.
Trees: ("L", [tree...]) | ("B", bytes) | ("BOOLEAN", [bool...]) | ("A", str) | ("J", str) |
       ("U1"|"U2"|"U4"|"U8"|"I1"|"I2"|"I4"|"I8", [int...]) | ("F4"|"F8", [float...])
Floats are built with float.hex-free integer arithmetic on the IEEE-754 bit patterns (no struct for the oracle side).
"""
from __future__ import annotations

import math

CODES = {"L": 0o00, "B": 0o10, "BOOLEAN": 0o11, "A": 0o20, "J": 0o21, "I8": 0o30, "I1": 0o31, "I2": 0o32, "I4": 0o34,
         "F8": 0o40, "F4": 0o44, "U8": 0o50, "U1": 0o51, "U2": 0o52, "U4": 0o54}
NAMES = {v: k for k, v in CODES.items()}
SIZE = {"I8": 8, "I1": 1, "I2": 2, "I4": 4, "F8": 8, "F4": 4, "U8": 8, "U1": 1, "U2": 2, "U4": 4}


class E5Error(Exception):
    pass


def jis8_to_unicode(b: int) -> int:
    if b == 0x5C:
        return 0xA5
    if b == 0x7E:
        return 0x203E
    if 0xA1 <= b <= 0xDF:
        return b + 0xFEC0
    return b


def unicode_to_jis8(ch: int) -> int:
    for b in range(256):
        if jis8_to_unicode(b) == ch:
            return b
    raise E5Error(f"U+{ch:04X} has no JIS-8 code unit")


def float_to_bits(v: float, size: int) -> int:
    """IEEE-754 bits of v rounded to nearest-even into binary32 (size 4) / binary64 (size 8); pure integer arithmetic."""
    ebits, mbits = (8, 23) if size == 4 else (11, 52)
    bias = (1 << (ebits - 1)) - 1
    sign = 1 if math.copysign(1.0, v) < 0 else 0
    if v != v:
        return (sign << (ebits + mbits)) | (((1 << ebits) - 1) << mbits) | (1 << (mbits - 1))
    if v in (math.inf, -math.inf):
        return (sign << (ebits + mbits)) | (((1 << ebits) - 1) << mbits)
    if v == 0:
        return sign << (ebits + mbits)
    num, den = abs(v).as_integer_ratio()
    # find e with 2^e <= |v| < 2^(e+1)
    e = num.bit_length() - den.bit_length()
    if (num << max(0, -e)) < (den << max(0, e)):
        e -= 1
    e_unb = max(e, 1 - bias)  # subnormals use the minimum exponent
    # mantissa = |v| / 2^(e_unb - mbits), rounded to nearest even
    shift = mbits - e_unb
    n2, d2 = (num << shift, den) if shift >= 0 else (num, den << -shift)
    q, r = divmod(n2, d2)
    if 2 * r > d2 or (2 * r == d2 and q & 1):
        q += 1
    if e >= 1 - bias:  # normal candidate: q in [2^mbits, 2^(mbits+1)]
        if q == (1 << (mbits + 1)):
            q >>= 1
            e_unb += 1
        exp_field = e_unb + bias
        if exp_field >= (1 << ebits) - 1:
            return (sign << (ebits + mbits)) | (((1 << ebits) - 1) << mbits)  # overflow to infinity
        return (sign << (ebits + mbits)) | (exp_field << mbits) | (q - (1 << mbits))
    # subnormal (q < 2^mbits) or rounded up to the smallest normal (q == 2^mbits)
    return (sign << (ebits + mbits)) | q


def bits_to_float(bits: int, size: int) -> float:
    ebits, mbits = (8, 23) if size == 4 else (11, 52)
    bias = (1 << (ebits - 1)) - 1
    sign = -1.0 if bits >> (ebits + mbits) else 1.0
    e = (bits >> mbits) & ((1 << ebits) - 1)
    m = bits & ((1 << mbits) - 1)
    if e == (1 << ebits) - 1:
        return sign * math.inf if m == 0 else math.nan
    if e == 0:
        return sign * math.ldexp(m, 1 - bias - mbits)
    return sign * math.ldexp(m + (1 << mbits), e - bias - mbits)


def header(code: int, n: int, k: int | None = None) -> bytes:
    if k is None:
        k = 1 if n <= 0xFF else 2 if n <= 0xFFFF else 3
    if not 0 <= n < 256 ** k or k not in (1, 2, 3):
        raise E5Error("length does not fit")
    return bytes([code << 2 | k]) + n.to_bytes(k, "big")


def payload(tree) -> bytes:
    kind, val = tree
    if kind == "B":
        return bytes(val)
    if kind == "BOOLEAN":
        return bytes(1 if b else 0 for b in val)
    if kind == "A":
        return bytes(ord(c) for c in val)
    if kind == "J":
        return bytes(unicode_to_jis8(ord(c)) for c in val)
    size = SIZE[kind]
    out = bytearray()
    for v in val:
        if kind[0] == "U":
            out += int(v).to_bytes(size, "big")
        elif kind[0] == "I":
            out += (int(v) % (1 << (8 * size))).to_bytes(size, "big")
        else:
            out += float_to_bits(float(v), size).to_bytes(size, "big")
    return bytes(out)


def encode(tree, k: int | None = None) -> bytes:
    """Canonical encoding (k=None) or with k length bytes on the outermost item."""
    kind, val = tree
    if kind == "L":
        return header(0, len(val), k) + b"".join(encode(c) for c in val)
    p = payload(tree)
    return header(CODES[kind], len(p), k) + p


def parse(data: bytes, pos: int = 0):
    """(tree, next position); raises E5Error on anything that is not a valid item."""
    if pos >= len(data):
        raise E5Error("no data")
    fb = data[pos]
    code, k = fb >> 2, fb & 3
    if k == 0 or code not in NAMES or pos + 1 + k > len(data):
        raise E5Error("bad header")
    n = int.from_bytes(data[pos + 1:pos + 1 + k], "big")
    pos += 1 + k
    kind = NAMES[code]
    if kind == "L":
        items = []
        for _ in range(n):
            t, pos = parse(data, pos)
            items.append(t)
        return ("L", items), pos
    if pos + n > len(data):
        raise E5Error("truncated")
    raw = data[pos:pos + n]
    pos += n
    if kind == "B":
        return ("B", bytes(raw)), pos
    if kind == "BOOLEAN":
        return ("BOOLEAN", [b != 0 for b in raw]), pos
    if kind == "A":
        return ("A", "".join(chr(b) for b in raw)), pos
    if kind == "J":
        return ("J", "".join(chr(jis8_to_unicode(b)) for b in raw)), pos
    size = SIZE[kind]
    if n % size:
        raise E5Error("length not a multiple of the element size")
    vals = []
    for i in range(0, n, size):
        u = int.from_bytes(raw[i:i + size], "big")
        if kind[0] == "U":
            vals.append(u)
        elif kind[0] == "I":
            vals.append(u - (1 << (8 * size)) if u >> (8 * size - 1) else u)
        else:
            vals.append(bits_to_float(u, size))
    return (kind, vals), pos


def canon(tree):
    """The value the bytes of `tree` denote after encoding (F4 values rounded to binary32)."""
    kind, val = tree
    if kind == "L":
        return ("L", [canon(c) for c in val])
    if kind == "F4":
        return ("F4", [bits_to_float(float_to_bits(float(v), 4), 4) for v in val])
    if kind == "F8":
        return ("F8", [float(v) for v in val])
    return tree


def plain(tree):
    """Python value the library's get() is documented to return (single-element collapse for numbers/booleans/binary)."""
    kind, val = tree
    if kind == "L":
        return [plain(c) for c in val]
    if kind in ("A", "J"):
        return val
    if kind == "B":
        return val[0] if len(val) == 1 else bytes(val)
    vals = list(val)
    return vals[0] if len(vals) == 1 else vals


def same(a, b) -> bool:
    """Equality of plain values where NaN equals NaN and 1 == True is NOT accepted for booleans."""
    if isinstance(a, float) and isinstance(b, float):
        return a == b or (a != a and b != b)
    if isinstance(a, (list, tuple)) and isinstance(b, (list, tuple)):
        return len(a) == len(b) and all(same(x, y) for x, y in zip(a, b))
    if isinstance(a, bool) != isinstance(b, bool):
        return False
    if isinstance(a, dict) and isinstance(b, dict):
        return list(a) == list(b) and all(same(a[k], b[k]) for k in a)
    return type(a) is type(b) and a == b or (isinstance(a, (int, float)) and isinstance(b, (int, float)) and not isinstance(a, bool) and a == b)
