"""Reference reading of SFDL structure definitions, written from docs/firststeps/sfdl.md (not from the parser).

shape(text) -> ("item", NAME) | ("array", key, element shape) | ("record", key, [(member key, member shape) ...])
Rules of the document: `<ITEM>` is a data item; a list with several members is a keyed record, a list with one member is
an open array; the key of a member is the data item name, for a nested open array of a data item that item's name, for
any other nested list "DATA"; a name after the L tag overrides the key.  '#' starts a comment up to the line break (LF, CR or CRLF)."""
from __future__ import annotations

import re


class SfdlRefError(Exception):
    pass


def tokens(text):
    text = re.sub(r"#[^\n\r]*", " ", text)        # a line break is LF, CR or CRLF
    return re.findall(r"[<>]|[^\s<>]+", text)


def parse(toks, pos, known):
    if pos >= len(toks) or toks[pos] != "<":
        raise SfdlRefError("'<' expected")
    pos += 1
    if pos >= len(toks):
        raise SfdlRefError("unexpected end")
    name = toks[pos]
    pos += 1
    if name.upper() != "L":
        if name.upper() not in known:
            raise SfdlRefError(f"unknown data item {name}")
        if pos >= len(toks) or toks[pos] != ">":
            raise SfdlRefError("'>' expected")
        return ("item", name.upper()), pos + 1
    given = None
    if pos < len(toks) and toks[pos] not in "<>":
        given = toks[pos]
        pos += 1
    members = []
    while True:
        if pos >= len(toks):
            raise SfdlRefError("missing closing bracket")
        if toks[pos] == ">":
            pos += 1
            break
        m, pos = parse(toks, pos, known)
        members.append(m)
    if not members:
        raise SfdlRefError("empty list")
    if len(members) == 1:
        elem = members[0]
        key = given or (elem[1] if elem[0] == "item" else "DATA")
        return ("array", key, elem), pos
    return ("record", given or "DATA", [(member_key(m), m) for m in members]), pos


def member_key(m):
    if m[0] == "item":
        return m[1]
    return m[1]        # arrays and records carry their key


def shape(text, known):
    toks = tokens(text)
    s, pos = parse(toks, 0, known)
    return s


def strip_keys(s):
    """Shape without the top-level key (the outermost name is not observable as a member key)."""
    return s
