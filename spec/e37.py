"""SEMI E37 (HSMS) frame layout, written from the standard: 4-byte big-endian message length (header + body, not
counting itself), 10-byte header: session id (2), header byte 2 = W-bit << 7 | stream, byte 3 = function,
PType, SType, system bytes (4)."""
from pyvc.spec_intrinsics import *  # noqa
from spec.e5 import be_u, uint_at

STYPES = (0, 1, 2, 3, 4, 5, 6, 7, 9)     # values E37 assigns


def header(session, w, stream, function, ptype, stype, system):
    b2 = stream + (128 if w else 0)
    return be_u(session, 2) + bytes([b2, function, ptype, stype]) + be_u(system, 4)


def header_byte2(w, stream):
    return stream + ite(w, 128, 0)
