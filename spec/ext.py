"""Abstract stand-ins for external objects (sockets ...): their methods are never executed, only their assumed
contracts (POSIX, A-EXT) are used at call sites.  Ghost fields carry what the kernel has accepted."""


class AbsSocket:
    """A connected non-blocking stream socket.  Ghost field `wire`: every byte the kernel accepted, in order."""

    def send(self, data):
        raise NotImplementedError("external")

    def close(self):
        raise NotImplementedError("external")

    def setsockopt(self, level, option, value):
        raise NotImplementedError("external")

    def setblocking(self, flag):
        raise NotImplementedError("external")

    def bind(self, address):
        raise NotImplementedError("external")

    def listen(self, backlog=0):
        raise NotImplementedError("external")

    def accept(self):
        raise NotImplementedError("external")

    def shutdown(self, how):
        raise NotImplementedError("external")

    def connect(self, address):
        raise NotImplementedError("external")

    def recv(self, size):
        raise NotImplementedError("external")


class AbsSettings:
    """Connection settings as the TCP classes read them: address and port."""


class AbsQueue:
    """queue.Queue seen from one consumer.  Ghost fields: g_pending (items waiting), g_served (items taken so far)."""

    def empty(self):
        raise NotImplementedError("external")

    def get(self):
        raise NotImplementedError("external")

    def put(self, item):
        raise NotImplementedError("external")

    def put_nowait(self, item):
        raise NotImplementedError("external")


class AbsCallback:
    """A registered stream/function callback (user code): called with (handler, message); returns a function object to
    send as reply, or None, or raises."""

    def __call__(self, handler, message):
        raise NotImplementedError("external")


class AbsFunctionClass:
    """A class of the stream/function catalogue as seen by the reply logic: calling it builds a function object of that
    stream and function."""

    def __call__(self, value=None):
        raise NotImplementedError("external")


class AbsFunction:
    """A stream/function object handed to send_response (ghost: g_stream, g_function, g_id)."""


class AbsDecoded:
    """A decoded stream/function as far as a handler looks at it (fields are AbsItem objects)."""


class AbsItem:
    """A decoded data item; get() returns the value it denotes (ghost g_value)."""

    def get(self):
        raise NotImplementedError("external")


class AbsVar:
    """Any SECS variable object as a container sees it: the abstract codec contract of C01.  Ghost fields: g_enc (the bytes
    its encode() returns), g_from / g_to (where its last decode() started and ended).  encode() has a NATIVE reading for
    replays (it returns the ghost bytes); the engine never reads the body (the call is replaced by ChildEncodeAbs)."""

    def encode(self):
        return bytes(self.g_enc)

    def decode(self, data, start=0):
        raise NotImplementedError("external")

    def set(self, value):
        raise NotImplementedError("external")

    def get(self):
        raise NotImplementedError("external")


class AbsArray:
    """A decoded list-valued data item (an Array of items): iterable over its item objects, len / truthiness, and get()
    gives the plain values.  Executed as written (not a call-out): `items` is a list of AbsItem."""

    def __iter__(self):
        return iter(self.items)

    def __len__(self):
        return len(self.items)

    def get(self):
        return [item.get() for item in self.items]


class AbsReportList:
    """The report list built for one collection event (ghost g_ceid: for which event)."""


class AbsStateEvents:
    """The EventProducer of one State object as the state machine engine uses it: fire(event, data) calls the registered
    handlers (user code).  Ghost: g_owner (the state it belongs to), counted in the state's g_enter / g_leave fields.
    The body is the NATIVE reading used in replays (a recording producer without handlers); the engine never reads it."""

    def fire(self, event, data):
        if event == "enter":
            self.g_owner.g_enter += 1
        if event == "leave":
            self.g_owner.g_leave += 1


class AbsTransitionEvents:
    """The EventProducer of one Transition object.  Ghost: g_called (how often 'called' was fired)."""

    def fire(self, event, data):
        raise NotImplementedError("external")


class AbsSubParser:
    """The reader of one sub-item handed to Item._read_items (a bound classmethod in the real code): called with the parser.
    The item it returns is represented by an integer handle."""

    def __call__(self, parser):
        raise NotImplementedError("external")


class AbsElement:
    """One raw element of an SFDL text (an operator or a word) as the token validator sees it: its text (`value`) and
    ghost marks g_open / g_close (the text is "<" / ">")."""


class AbsTokenList:
    """The list of validated tokens `_process_tokens` appends to, seen through ghost counters: g_n tokens, of which g_open
    OPEN_TAG and g_close CLOSE_TAG tokens, g_unknown DATA_ITEM tokens whose name is not a known data item."""

    def append(self, token):
        raise NotImplementedError("external")

    def __getitem__(self, index):
        raise NotImplementedError("external")

    def __len__(self):
        raise NotImplementedError("external")


class AbsGate:
    """threading.Event seen from the thread that waits for it.  Ghost field g_set: the event is set."""

    def wait(self, timeout=None):
        raise NotImplementedError("external")

    def set(self):
        raise NotImplementedError("external")

    def clear(self):
        raise NotImplementedError("external")


class AbsLinkEvent:
    """An event of a connection object (on_connected, on_disconnecting, on_disconnected): calling it runs the registered
    handlers (protocol layer and application).  Ghost fields: g_fired (calls so far), g_owner (the connection)."""

    def __call__(self, data):
        raise NotImplementedError("external")


class AbsThread:
    """threading.Thread seen from another thread.  Ghost field g_dead: the thread has ended (never alive again)."""

    def is_alive(self):
        raise NotImplementedError("external")

    def join(self, timeout=None):
        raise NotImplementedError("external")


class AbsHook:
    """A call-back without arguments (e.g. the dispatcher's stopped_target).  Ghost fields: g_calls, g_owner."""

    def __call__(self):
        raise NotImplementedError("external")


def _abs_queue_get_nowait(self):
    raise NotImplementedError("external")


AbsQueue.get_nowait = _abs_queue_get_nowait
