"""Abstract stand-ins for external objects (sockets ...): their methods are never executed, only their assumed
contracts (POSIX, A-EXT) are used at call sites.  Ghost fields carry what the kernel has accepted."""


class AbsSocket:
    """A connected non-blocking stream socket.  Ghost field `wire`: every byte the kernel accepted, in order."""

    def send(self, data):
        raise NotImplementedError("external")

    def close(self):
        raise NotImplementedError("external")


class AbsQueue:
    """queue.Queue seen from one consumer.  Ghost fields: g_pending (items waiting), g_served (items taken so far)."""

    def empty(self):
        raise NotImplementedError("external")

    def get(self):
        raise NotImplementedError("external")

    def put(self, item):
        raise NotImplementedError("external")

    def put_nowait(self, item):
        raise NotImplementedError("external")
